(* Executable interface of the IntegerWrapper model for the C19 correspondence check:
   an operation descriptor is run on every value of an integer range and the outcomes are
   flattened to a list of integers (each outcome prefixed by its length). *)
From Coq Require Import ZArith List Bool.
Require Import PyIR.Base.Result PyIR.IW.IW.
Import ListNotations.
Open Scope Z_scope.

Inductive op :=
  | OpMk (n : option Z)
  | OpMkOf (w : Z) (n : option Z)
  | OpBin (code w : Z) (o : operand)
  | OpRBin (code w z : Z)
  | OpCmp (code w : Z) (o : operand)
  | OpUn (code w : Z) (arg : option Z)
  | OpSlice (w : Z) (start : sstart) (stop step : option Z)
  | OpSym (w : Z) (msb : bool) (tl : nat)
  | OpParse (msb : bool) (tl : nat) (nsyms : nat).   (* v enumerates symbol strings: digits of v in base tl *)

Definition enc_iw (x : iw) : list Z := [value x; nbits x].
Definition enc_b (b : bool) : Z := if b then 1 else 0.
Definition enc_pyv (p : pyv) : list Z := match p with VIW x => 0 :: enc_iw x | VBool b => [1; enc_b b] end.

Definition run_bin (code : Z) (x : iw) (o : operand) : result iw :=
  match code with
  | 0 => Ok (iw_add x o) | 1 => Ok (iw_sub x o) | 2 => Ok (iw_mul x o)
  | 3 => iw_floordiv x o | 4 => iw_mod x o
  | 5 => Ok (iw_and x o) | 6 => Ok (iw_or x o) | 7 => Ok (iw_xor x o)
  | 8 => iw_shl x o | _ => iw_shr x o
  end.
Definition run_rbin (code : Z) (x : iw) (z : Z) : iw :=
  match code with
  | 0 => iw_radd x z | 1 => iw_rsub x z | 2 => iw_rmul x z
  | 5 => iw_rand x z | 6 => iw_ror x z | _ => iw_rxor x z
  end.
Definition run_un (code : Z) (x : iw) (arg : option Z) : list Z :=
  match code with
  | 0 => enc_iw (invert_bits x arg)
  | 1 => enc_iw (reverse_bit_order x arg)
  | 2 => enc_iw (reverse_bit_order x None)
  | 3 => enc_iw (num_one_bits x)
  | 4 => enc_iw (iw_neg x)
  | 5 => enc_iw (iw_invert x)
  | 6 => enc_iw (iw_abs x)
  | 7 => map enc_b (iter_bits x)
  | 8 => map enc_b (bits_msb x)
  | _ => enc_iw (iw_pos x)
  end.

Fixpoint digits (base : nat) (n : nat) (v : nat) : list nat :=
  match n with O => [] | S m => Nat.modulo v base :: digits base m (Nat.div v base) end.

Definition run_op (o : op) (v : Z) : list Z :=
  match o with
  | OpMk n => enc_iw (mk v n)
  | OpMkOf w n => enc_iw (mk_of (mk v (Some w)) n)
  | OpBin code w o => enc_result enc_iw (run_bin code (mk v (Some w)) o)
  | OpRBin code w z => enc_iw (run_rbin code (mk v (Some w)) z)
  | OpCmp code w o => [enc_b (iw_cmp code (mk v (Some w)) o)]
  | OpUn code w arg => run_un code (mk v (Some w)) arg
  | OpSlice w start stop step => enc_result enc_pyv (getitem (mk v (Some w)) start stop step)
  | OpSym w msb tl => enc_result (map Z.of_nat) (symbols msb tl (mk v (Some w)))
  | OpParse msb tl nsyms =>
      [bits_value msb (flat_map (sym_to_bits tl) (digits tl nsyms (Z.to_nat v)))]
  end.

Fixpoint zrange (lo : Z) (n : nat) : list Z := match n with O => [] | S m => lo :: zrange (lo + 1) m end.

Definition run_case (c : op * Z * Z) : list Z :=
  let '(o, lo, hi) := c in
  flat_map (fun v => let r := run_op o v in Z.of_nat (length r) :: r) (zrange lo (Z.to_nat (hi - lo + 1))).
