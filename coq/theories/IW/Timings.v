(* C19, last clause — rendering a bit field to symbols and parsing the symbols back. *)
From Coq Require Import ZArith List Bool Lia ZifyBool ZifyNat Arith.
Require Import PyIR.Base.Result PyIR.IW.IW PyIR.IW.IWProps.
Import ListNotations.
Open Scope Z_scope.
Ltac Zify.zify_post_hook ::= Z.to_euclidean_division_equations.

Lemma value_lsb_testbits v n : 0 <= v -> forall a,
  value_lsb (map (fun i => Z.testbit v (Z.of_nat i)) (seq a n)) = (v / 2 ^ Z.of_nat a) mod 2 ^ Z.of_nat n.
Proof.
  intros Hv. induction n as [|n IH]; intros a.
  - cbn. rewrite Z.mod_1_r. reflexivity.
  - cbn [seq map value_lsb]. rewrite IH.
    set (u := v / 2 ^ Z.of_nat a).
    assert (v / 2 ^ Z.of_nat (S a) = u / 2) as ->.
    { unfold u. rewrite Nat2Z.inj_succ, Z.pow_succ_r by lia.
      assert (0 < 2 ^ Z.of_nat a) by (apply Z.pow_pos_nonneg; lia).
      rewrite Z.div_div by lia. f_equal. lia. }
    assert (Z.b2z (Z.testbit v (Z.of_nat a)) = u mod 2) as ->.
    { rewrite <- Z.bit0_mod. unfold u. rewrite Z.div_pow2_bits by lia. f_equal. }
    rewrite Nat2Z.inj_succ, Z.pow_succ_r by lia.
    assert (0 < 2 ^ Z.of_nat n) by (apply Z.pow_pos_nonneg; lia).
    rewrite Z.rem_mul_r by lia. reflexivity.
Qed.

Lemma iter_bits_testbits x : canonical x ->
  iter_bits x = map (fun i => Z.testbit (value x) (Z.of_nat i)) (seq 0 (Z.to_nat (nbits x))).
Proof. intros Hx. unfold iter_bits. apply map_ext. intros i. apply bit_canonical; auto. lia. Qed.

Lemma value_lsb_iter x : canonical x -> value_lsb (iter_bits x) = value x.
Proof.
  intros Hx. rewrite iter_bits_testbits by auto. destruct Hx as [Hn Hv].
  rewrite value_lsb_testbits by lia. cbn [Z.of_nat]. rewrite Z.pow_0_r, Z.div_1_r, Z2Nat.id by lia.
  apply Z.mod_small; lia.
Qed.

Lemma value_lsb_app_false l p : value_lsb (l ++ repeat false p) = value_lsb l.
Proof.
  induction l as [|b l IH]; cbn [app value_lsb].
  - induction p as [|p IHp]; cbn [repeat value_lsb]; [reflexivity|]. rewrite IHp. reflexivity.
  - rewrite IH. reflexivity.
Qed.

Lemma rev_repeat {A} (a : A) p : rev (repeat a p) = repeat a p.
Proof.
  induction p as [|p IH]; [reflexivity|]. cbn [repeat rev]. rewrite IH.
  clear IH. induction p as [|p IH]; [reflexivity|]. cbn [repeat app]. f_equal. exact IH.
Qed.

(* the padded bit list read back in the declared order is the value *)
Lemma padded_bits_value msb tl x : canonical x -> bits_value msb (padded_bits msb tl x) = value x.
Proof.
  intros Hx. unfold bits_value, padded_bits, bits_msb. destruct msb.
  - unfold value_msb. rewrite rev_app_distr, rev_involutive, rev_repeat. rewrite value_lsb_app_false.
    apply value_lsb_iter; auto.
  - rewrite value_lsb_app_false. apply value_lsb_iter; auto.
Qed.

Lemma iter_bits_length x : length (iter_bits x) = Z.to_nat (nbits x).
Proof. unfold iter_bits. rewrite map_length, seq_length. reflexivity. Qed.

Lemma padded_bits_length msb tl x :
  length (padded_bits msb tl x) = (Z.to_nat (nbits x) + pad_count tl (Z.to_nat (nbits x)))%nat.
Proof.
  unfold padded_bits, bits_msb. destruct msb; rewrite app_length, repeat_length, ?rev_length, iter_bits_length; lia.
Qed.

(* two-by-two and four-by-four list induction *)
Lemma list_ind2 {A} (P : list A -> Prop) :
  P [] -> (forall a, P [a]) -> (forall a b l, P l -> P (a :: b :: l)) -> forall l, P l.
Proof.
  intros H0 H1 H2. fix IH 1. intros [|a [|b l]]; [exact H0|apply H1|apply H2, IH].
Qed.

Lemma symbols2_ok bits : Nat.even (length bits) = true ->
  exists syms, symbols2 bits = Ok syms /\ flat_map (sym_to_bits 4) syms = bits /\
               (2 * length syms = length bits)%nat /\ Forall (fun i => (i < 4)%nat) syms.
Proof.
  induction bits as [| a | a b l IH] using list_ind2; intros He.
  - exists []. repeat split; constructor.
  - discriminate.
  - cbn [length Nat.even] in He. destruct (IH He) as [syms [E1 [E2 [E3 E4]]]].
    exists ((2 * b2n a + b2n b)%nat :: syms). cbn [symbols2]. rewrite E1. cbn [bind].
    split; [reflexivity|]. split; [|split].
    + cbn [flat_map]. rewrite E2. destruct a, b; reflexivity.
    + cbn [length]. lia.
    + constructor; [destruct a, b; cbn; lia|exact E4].
Qed.

Lemma list_ind4 {A} (P : list A -> Prop) :
  P [] -> (forall a, P [a]) -> (forall a b, P [a; b]) -> (forall a b c, P [a; b; c]) ->
  (forall a b c d l, P l -> P (a :: b :: c :: d :: l)) -> forall l, P l.
Proof.
  intros H0 H1 H2 H3 H4. fix IH 1. intros [|a [|b [|c [|d l]]]]; [exact H0|apply H1|apply H2|apply H3|apply H4, IH].
Qed.

Lemma symbols4_ok bits : (length bits mod 4 = 0)%nat ->
  exists syms, symbols4 bits = Ok syms /\ flat_map (sym_to_bits 16) syms = bits /\
               (4 * length syms = length bits)%nat /\ Forall (fun i => (i < 16)%nat) syms.
Proof.
  induction bits as [| a | a b | a b c | a b c d l IH] using list_ind4; intros He;
    try (cbn in He; discriminate).
  - exists []. repeat split; constructor.
  - assert (length l mod 4 = 0)%nat as He'.
    { cbn [length] in He. replace (S (S (S (S (length l))))) with (length l + 1 * 4)%nat in He by lia.
      rewrite Nat.mod_add in He by lia. exact He. }
    destruct (IH He') as [syms [E1 [E2 [E3 E4]]]].
    exists ((8 * b2n a + 4 * b2n b + 2 * b2n c + b2n d)%nat :: syms). cbn [symbols4]. rewrite E1. cbn [bind].
    split; [reflexivity|]. split; [|split].
    + cbn [flat_map]. rewrite E2. destruct a, b, c, d; reflexivity.
    + cbn [length]. lia.
    + constructor; [destruct a, b, c, d; cbn; lia|exact E4].
Qed.

Lemma map_b2n_back bits : flat_map (sym_to_bits 2) (map b2n bits) = bits.
Proof. induction bits as [|b l IH]; [reflexivity|]. cbn [map flat_map]. rewrite IH. destruct b; reflexivity. Qed.

(* bits per symbol *)
Definition bps (tl : nat) : nat := if Nat.eqb tl 2 then 1 else if Nat.eqb tl 4 then 2 else 4.

(* C19: rendering emits exactly ceil(n/k) symbols of a 2^k-entry table, each a valid index, never raises,
   and parsing the symbols back in the declared bit order returns the value. *)
Theorem timings_roundtrip msb tl x : canonical x -> (tl = 2 \/ tl = 4 \/ tl = 16)%nat ->
  exists syms, symbols msb tl x = Ok syms
    /\ bits_value msb (flat_map (sym_to_bits tl) syms) = value x
    /\ length syms = ((Z.to_nat (nbits x) + bps tl - 1) / bps tl)%nat
    /\ Forall (fun i => (i < tl)%nat) syms.
Proof.
  intros Hx Htl. pose proof (padded_bits_value msb tl x Hx) as Hv.
  pose proof (padded_bits_length msb tl x) as Hl. unfold symbols.
  set (n := Z.to_nat (nbits x)) in *.
  destruct Htl as [E|[E|E]]; subst tl; cbn [Nat.eqb bps] in *.
  - exists (map b2n (padded_bits msb 2 x)). split; [reflexivity|]. rewrite map_b2n_back. split; [exact Hv|].
    split.
    + rewrite map_length, Hl. change (pad_count 2 n) with 0%nat. lia.
    + apply Forall_forall. intros i Hi. apply in_map_iff in Hi as [b [<- _]]. destruct b; cbn; lia.
  - change (pad_count 4 n) with (n mod 2)%nat in Hl.
    assert (Nat.even (length (padded_bits msb 4 x)) = true) as He.
    { rewrite Hl. rewrite Nat.even_spec. exists ((n + n mod 2) / 2)%nat. lia. }
    destruct (symbols2_ok _ He) as [syms [E1 [E2 [E3 E4]]]].
    exists syms. split; [exact E1|]. rewrite E2. split; [exact Hv|]. split; [|exact E4].
    rewrite Hl in E3. lia.
  - change (pad_count 16 n) with ((4 - n mod 4) mod 4)%nat in Hl.
    assert (length (padded_bits msb 16 x) mod 4 = 0)%nat as He by (rewrite Hl; lia).
    destruct (symbols4_ok _ He) as [syms [E1 [E2 [E3 E4]]]].
    exists syms. split; [exact E1|]. rewrite E2. split; [exact Hv|]. split; [|exact E4].
    rewrite Hl in E3. lia.
Qed.
