(* C12 — invariants of the release-timer model, by induction over arbitrary operation words. *)
From Coq Require Import ZArith List Bool Lia ZifyBool ZifyNat.
Require Import PyIR.Ctl.Timer.
Import ListNotations.
Open Scope Z_scope.

Fixpoint cnt (i : nat) (l : list nat) : Z :=
  match l with [] => 0 | j :: r => (if Nat.eqb i j then 1 else 0) + cnt i r end.
Lemma cnt_app i a b : cnt i (a ++ b) = cnt i a + cnt i b.
Proof. induction a as [|j a IH]; cbn [app cnt]; lia. Qed.

Definition armed_i (i : nat) (ts : list timer) : bool := match nth_error ts i with Some t => armed t | None => false end.
(* releases handed over so far + one if the timer is still armed *)
Definition mu (i : nat) (ts : list timer) (rel : list nat) : Z := cnt i rel + Z.b2z (armed_i i ts).

Lemma nth_error_set_nth_eq {A} (l : list A) : forall i x t, nth_error l i = Some t -> nth_error (set_nth i x l) i = Some x.
Proof.
  induction l as [|y l IH]; intros i x t H.
  - destruct i; discriminate.
  - destruct i as [|i]; [reflexivity|]. cbn in *. eapply IH. exact H.
Qed.
Lemma nth_error_set_nth_ne {A} (l : list A) : forall i j x, i <> j -> nth_error (set_nth j x l) i = nth_error l i.
Proof.
  induction l as [|y l IH]; intros i j x H.
  - destruct j; reflexivity.
  - destruct i as [|i], j as [|j]; cbn; try reflexivity; try lia. apply IH. lia.
Qed.

Lemma armed_set_eq ts i t x : nth_error ts i = Some t -> armed_i i (set_nth i x ts) = armed x.
Proof. intros H. unfold armed_i. rewrite (nth_error_set_nth_eq ts i x t H). reflexivity. Qed.
Lemma armed_set_ne ts i j x : i <> j -> armed_i i (set_nth j x ts) = armed_i i ts.
Proof. intros H. unfold armed_i. rewrite nth_error_set_nth_ne by exact H. reflexivity. Qed.

(* one polling pass neither creates nor loses a notification: with the disarm on fire, a fire moves the token
   from "armed" to "released" *)
Lemma poll_mu nw i : forall q ts rel q' ts' rel',
  poll true nw q ts rel = (q', ts', rel') -> mu i ts' rel' = mu i ts rel.
Proof.
  induction q as [|j q IH]; intros ts rel q' ts' rel' H; cbn [poll] in H.
  - injection H as <- <- <-. reflexivity.
  - destruct (nth_error ts j) as [t|] eqn:Ej; [|eapply IH; exact H].
    destruct (run_func true nw t) as [[t1 fired] remove] eqn:Er.
    destruct (poll true nw q (set_nth j t1 ts) (if fired then rel ++ [j] else rel)) as [[q1 ts1] rel1] eqn:Ep.
    injection H as <- <- <-. rewrite (IH _ _ _ _ _ Ep). unfold mu.
    unfold run_func in Er. destruct (armed t) eqn:Ea; cbn [negb] in Er.
    + destruct (adjusted t <=? 10 * (nw - t_start t)) eqn:Ed; injection Er as <- <- <-.
      * destruct (Nat.eq_dec i j) as [->|Hne].
        -- rewrite (armed_set_eq ts j t _ Ej). cbn [armed negb]. rewrite cnt_app. cbn [cnt]. rewrite Nat.eqb_refl.
           unfold armed_i. rewrite Ej, Ea. cbn. lia.
        -- rewrite armed_set_ne by exact Hne. rewrite cnt_app. cbn [cnt]. replace (Nat.eqb i j) with false by lia. lia.
      * destruct (Nat.eq_dec i j) as [->|Hne].
        -- rewrite (armed_set_eq ts j t _ Ej). unfold armed_i. rewrite Ej. reflexivity.
        -- rewrite armed_set_ne by exact Hne. reflexivity.
    + injection Er as <- <- <-. destruct (Nat.eq_dec i j) as [->|Hne].
      * rewrite (armed_set_eq ts j t _ Ej). unfold armed_i. rewrite Ej. reflexivity.
      * rewrite armed_set_ne by exact Hne. reflexivity.
Qed.

(* what an operation contributes: +1 when it arms a disarmed timer i, -1 when it cancels an armed timer i *)
Definition delta (i : nat) (w : world) (o : top) : Z :=
  match o with
  | Start j _ => if Nat.eqb i j && negb (armed_i i (timers w)) && (match nth_error (timers w) i with Some _ => true | None => false end) then 1 else 0
  | Cancel j => if Nat.eqb i j && armed_i i (timers w) then -1 else 0
  | _ => 0
  end.

Lemma step_mu i w o : mu i (timers (step true w o)) (released (step true w o)) = mu i (timers w) (released w) + delta i w o.
Proof.
  destruct o as [j el|j|j| |d]; cbn [step delta].
  - destruct (nth_error (timers w) j) as [t|] eqn:Ej; cbn [timers released].
    + unfold mu. destruct (Nat.eq_dec i j) as [->|Hne].
      * rewrite (armed_set_eq _ j t _ Ej). cbn [armed]. rewrite Nat.eqb_refl. unfold armed_i. rewrite Ej.
        destruct (armed t); cbn; lia.
      * rewrite armed_set_ne by exact Hne. replace (Nat.eqb i j) with false by lia. cbn. lia.
    + destruct (Nat.eq_dec i j) as [->|Hne]; [rewrite Ej, andb_false_r|replace (Nat.eqb i j) with false by lia]; cbn; lia.
  - destruct (nth_error (timers w) j) as [t|] eqn:Ej; [|lia].
    destruct (armed t) eqn:Ea; [|lia]. cbn [timers released]. unfold mu. rewrite cnt_app. cbn [cnt].
    destruct (Nat.eq_dec i j) as [->|Hne].
    + rewrite (armed_set_eq _ j t _ Ej). cbn [armed]. rewrite Nat.eqb_refl. unfold armed_i. rewrite Ej, Ea. cbn. lia.
    + rewrite armed_set_ne by exact Hne. replace (Nat.eqb i j) with false by lia. lia.
  - destruct (nth_error (timers w) j) as [t|] eqn:Ej; cbn [timers released].
    + unfold mu. destruct (Nat.eq_dec i j) as [->|Hne].
      * rewrite (armed_set_eq _ j t _ Ej). cbn [armed]. rewrite Nat.eqb_refl. unfold armed_i. rewrite Ej.
        destruct (armed t); cbn; lia.
      * rewrite armed_set_ne by exact Hne. replace (Nat.eqb i j) with false by lia. cbn. lia.
    + destruct (Nat.eq_dec i j) as [->|Hne]; [unfold armed_i; rewrite Ej, andb_false_r|replace (Nat.eqb i j) with false by lia]; cbn; lia.
  - destruct (poll true (now w) (tqueue w) (timers w) (released w)) as [[q' ts'] rel'] eqn:Ep. cbn [timers released].
    rewrite (poll_mu _ _ _ _ _ _ _ _ Ep). lia.
  - cbn [timers released]. lia.
Qed.

(* armings and cancellations along a word *)
Fixpoint deltas (i : nat) (w : world) (ops : list top) : Z :=
  match ops with [] => 0 | o :: r => delta i w o + deltas i (step true w o) r end.

(* Conservation, for every operation word of any length: releases handed over + (1 if still armed)
   = the same quantity at the beginning + armings - cancellations.  Hence every arming of a timer is answered by at
   most one release notification, and by exactly one once the timer is found disarmed again without a cancel. *)
Theorem timer_conservation i : forall ops w,
  mu i (timers (run true w ops)) (released (run true w ops)) = mu i (timers w) (released w) + deltas i w ops.
Proof.
  induction ops as [|o ops IH]; intros w; cbn [run fold_left deltas]; [lia|].
  fold (run true (step true w o) ops). rewrite IH, step_mu. lia.
Qed.

(* a word without Start/Cancel of timer i: at most one more release, none if the timer was not armed *)
Definition quiet (i : nat) (o : top) : bool :=
  match o with Start j _ => negb (Nat.eqb i j) | Cancel j => negb (Nat.eqb i j) | _ => true end.

Lemma deltas_quiet i : forall ops w, forallb (quiet i) ops = true -> deltas i w ops = 0.
Proof.
  induction ops as [|o ops IH]; intros w H; [reflexivity|]. cbn [forallb] in H. apply andb_true_iff in H as [H1 H2].
  cbn [deltas]. rewrite IH by exact H2. destruct o; cbn [quiet delta] in *; try lia.
  - replace (Nat.eqb i i0) with false by lia. reflexivity.
  - replace (Nat.eqb i i0) with false by lia. reflexivity.
Qed.

Theorem at_most_one_release i ops w : forallb (quiet i) ops = true ->
  cnt i (released (run true w ops)) <= cnt i (released w) + Z.b2z (armed_i i (timers w)) /\
  (armed_i i (timers (run true w ops)) = false ->
   cnt i (released (run true w ops)) = cnt i (released w) + Z.b2z (armed_i i (timers w))).
Proof.
  intros H. pose proof (timer_conservation i ops w) as C. rewrite (deltas_quiet i ops w H) in C. unfold mu in C.
  split; [destruct (armed_i i (timers (run true w ops))); cbn in C; lia|].
  intros E. rewrite E in C. cbn in C. lia.
Qed.

(* no release while the padded timeout has not elapsed *)
Theorem no_early_fire dof nw t : armed t = true -> 10 * (nw - t_start t) < adjusted t ->
  run_func dof nw t = (t, false, false).
Proof. intros Ha Hd. unfold run_func. rewrite Ha. cbn [negb]. destruct (adjusted t <=? 10 * (nw - t_start t)) eqn:E; [lia|reflexivity]. Qed.

(* frames of the held key arriving at intervals shorter than the nominal timeout never let the timer fire *)
Corollary no_fire_within_timeout dof nw t el : armed t = true -> 0 <= el -> 0 <= duration t ->
  adjusted t = adjust (duration t) el -> nw - t_start t < duration t -> run_func dof nw t = (t, false, false).
Proof. intros Ha He Hd Hadj Hlt. apply no_early_fire; [exact Ha|]. rewrite Hadj. unfold adjust. lia. Qed.

(* once the padded timeout has elapsed a polling pass hands over the release and (after the repair) disarms *)
Theorem fires_when_due nw t : armed t = true -> adjusted t <= 10 * (nw - t_start t) ->
  exists t', run_func true nw t = (t', true, true) /\ armed t' = false.
Proof.
  intros Ha Hd. unfold run_func. rewrite Ha. cbn [negb]. destruct (adjusted t <=? 10 * (nw - t_start t)) eqn:E; [|lia].
  eexists. split; [reflexivity|reflexivity].
Qed.

(* Without the disarm (the behaviour of the pinned source) the statement is false: one arming, two releases. *)
Example double_release_without_disarm :
  let w := run false (init [108000]) [Start 0%nat 0; Advance 200000; Poll; Stop 0%nat] in
  released w = [0%nat; 0%nat].
Proof. vm_compute. reflexivity. Qed.
Example single_release_with_disarm :
  let w := run true (init [108000]) [Start 0%nat 0; Advance 200000; Poll; Stop 0%nat] in
  released w = [0%nat].
Proof. vm_compute. reflexivity. Qed.
