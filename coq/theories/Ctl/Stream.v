(* Hand-written model of the streaming decoder (DecodeThread.append / DecodeThread.run, protocols/__init__.py 424-505)
   for a stream of one carrier frequency, without idle timeouts.  The dispatcher call  self.decoder._decode(candidate,
   frequency)  is a parameter [dec] acting on an abstract state. *)
From Coq Require Import ZArith List Bool Lia ZifyBool.
Import ListNotations.
Open Scope Z_scope.

Section Stream.
  Variable S : Type.
  Variable dec : S -> list Z -> S * bool.       (* truthiness of self.decoder._decode(tmp_buf[:], frequency) *)

  (* a candidate is cut after a duration below -2000 once more than three durations are collected *)
  Definition cut_here (tmp' : list Z) (x : Z) : bool := (3 <? Z.of_nat (length tmp')) && (x <? -2000).

  (* the inner while-loop over the merged buffer; acc = candidates accepted so far *)
  Fixpoint scan (s : S) (tmp : list Z) (buf : list Z) (acc : list (list Z)) : S * list Z * list (list Z) :=
    match buf with
    | [] => (s, tmp, acc)
    | x :: r =>
        let tmp' := tmp ++ [x] in
        if cut_here tmp' x then
          let '(s', ok) := dec s tmp' in
          if ok then scan s' [] r (acc ++ [tmp']) else scan s' tmp' r acc
        else scan s tmp' r acc
    end.

  (* state of the thread: the dispatcher state, the deque of chunks, everything accepted so far *)
  Record st := { disp : S; buffer : list (list Z); accepted : list (list Z) }.

  Inductive sop := Append (chunk : list Z) | Wake.

  Definition sstep (w : st) (o : sop) : st :=
    match o with
    | Append c => {| disp := disp w; buffer := buffer w ++ [c]; accepted := accepted w |}
    | Wake =>
        let '(s', tmp, acc) := scan (disp w) [] (concat (buffer w)) (accepted w) in
        {| disp := s'; buffer := match tmp with [] => [] | _ => [tmp] end; accepted := acc |}
    end.

  Definition srun (w : st) (ops : list sop) : st := fold_left sstep ops w.

  (* ---------------------------------------------------------------- chunk independence *)
  (* a rejected candidate leaves the dispatcher and the protocol decoders as they were *)
  Hypothesis neutral : forall s d, snd (dec s d) = false -> fst (dec s d) = s.

  Lemma scan_app s : forall a tmp b acc,
    scan s tmp (a ++ b) acc = let '(s', tmp', acc') := scan s tmp a acc in scan s' tmp' b acc'.
  Proof.
    intros a. revert s. induction a as [|x a IH]; intros s tmp b acc; [reflexivity|].
    cbn [app scan]. destruct (cut_here (tmp ++ [x]) x).
    - destruct (dec s (tmp ++ [x])) as [s' ok]. destruct ok; apply IH.
    - apply IH.
  Qed.

  (* tmp is a remainder: scanning it again from scratch in state s accepts nothing and changes nothing *)
  Definition remainder (s : S) (tmp : list Z) : Prop := forall acc, scan s [] tmp acc = (s, tmp, acc).

  Lemma remainder_nil s : remainder s [].
  Proof. intros acc. reflexivity. Qed.

  (* what a scan leaves behind is a remainder of the state it ends in *)
  Lemma scan_leaves_remainder : forall buf s tmp acc s' tmp' acc',
    remainder s tmp -> scan s tmp buf acc = (s', tmp', acc') -> remainder s' tmp'.
  Proof.
    induction buf as [|x r IH]; intros s tmp acc s' tmp' acc' Hr H; cbn [scan] in H.
    - injection H as <- <- <-. exact Hr.
    - destruct (cut_here (tmp ++ [x]) x) eqn:Ec.
      + destruct (dec s (tmp ++ [x])) as [s1 ok] eqn:Ed. destruct ok.
        * eapply IH; [apply remainder_nil|exact H].
        * assert (s1 = s) as -> by (pose proof (neutral s (tmp ++ [x])) as N; rewrite Ed in N; apply N; reflexivity).
          eapply IH; [|exact H]. intros a. rewrite scan_app, Hr. cbn [scan app]. rewrite Ec, Ed. reflexivity.
      + eapply IH; [|exact H]. intros a. rewrite scan_app, Hr. cbn [scan app]. rewrite Ec. reflexivity.
  Qed.

  (* re-scanning a remainder followed by new data = continuing the scan *)
  Lemma rescan s tmp rest acc : remainder s tmp -> scan s [] (tmp ++ rest) acc = scan s tmp rest acc.
  Proof. intros Hr. rewrite scan_app, Hr. reflexivity. Qed.

  Theorem chunk_independent s0 : forall ops fed w,
    (exists tmp, buffer w = match tmp with [] => [] | _ => [tmp] end /\ remainder (disp w) tmp /\
                 scan s0 [] fed [] = (disp w, tmp, accepted w)) ->
    let chunks := concat (flat_map (fun o => match o with Append c => [c] | Wake => [] end) ops) in
    let w' := srun w (ops ++ [Wake]) in
    scan s0 [] (fed ++ chunks) [] = (disp w', concat (buffer w'), accepted w').
  Proof.
    (* generalised over a buffer holding a remainder followed by appended chunks *)
    assert (forall ops fed w tmp extra,
              concat (buffer w) = tmp ++ extra -> remainder (disp w) tmp ->
              scan s0 [] fed [] = (disp w, tmp, accepted w) ->
              let chunks := concat (flat_map (fun o => match o with Append c => [c] | Wake => [] end) ops) in
              let w' := srun w (ops ++ [Wake]) in
              scan s0 [] (fed ++ extra ++ chunks) [] = (disp w', concat (buffer w'), accepted w')) as G.
    { induction ops as [|o ops IH]; intros fed w tmp extra Hb Hr Hs; cbv zeta.
      - cbn [flat_map concat app srun fold_left sstep]. rewrite app_nil_r. rewrite Hb.
        rewrite (rescan _ _ _ _ Hr). rewrite scan_app, Hs.
        destruct (scan (disp w) tmp extra (accepted w)) as [[s1 t1] a1] eqn:E. cbn [disp buffer accepted].
        destruct t1; cbn [concat app]; rewrite ?app_nil_r; reflexivity.
      - destruct o as [c|].
        + cbn [flat_map concat app]. change (srun w ((Append c :: ops) ++ [Wake])) with (srun (sstep w (Append c)) (ops ++ [Wake])).
          specialize (IH fed (sstep w (Append c)) tmp (extra ++ c)). cbv zeta in IH.
          cbn [sstep disp buffer accepted] in IH. rewrite concat_app in IH. cbn [concat] in IH. rewrite app_nil_r in IH.
          rewrite Hb in IH. rewrite <- (app_assoc extra c) in IH. apply IH; auto.
          rewrite <- app_assoc. reflexivity.
        + cbn [flat_map app]. replace (srun w (Wake :: ops ++ [Wake])) with (srun (sstep w Wake) (ops ++ [Wake])) by reflexivity.
          destruct (scan (disp w) tmp extra (accepted w)) as [[s1 t1] a1] eqn:E.
          assert (sstep w Wake = {| disp := s1; buffer := match t1 with [] => [] | _ => [t1] end; accepted := a1 |}) as Ew.
          { unfold sstep. rewrite Hb. rewrite (rescan _ _ _ _ Hr). rewrite E. reflexivity. }
          rewrite Ew.
          pose proof (scan_leaves_remainder _ _ _ _ _ _ _ Hr E) as Hr1.
          specialize (IH (fed ++ extra) {| disp := s1; buffer := match t1 with [] => [] | _ => [t1] end; accepted := a1 |} t1 []). cbv zeta in IH.
          cbn [disp buffer accepted] in IH. cbn [app] in IH. rewrite <- app_assoc in IH.
          apply IH; auto.
          * destruct t1; cbn [concat app]; rewrite ?app_nil_r; reflexivity.
          * rewrite scan_app, Hs. exact E. }
    intros ops fed w [tmp [Hb [Hr Hs]]]. cbn zeta.
    specialize (G ops fed w tmp [] ). cbv zeta in G. cbn [app] in G. apply G; auto.
    rewrite Hb. destruct tmp; cbn [concat app]; rewrite ?app_nil_r; reflexivity.
  Qed.
End Stream.

(* ------------------------------------------------------------------ executable interface (trace oracle) *)
Fixpoint zl_eqb (a b : list Z) : bool :=
  match a, b with [], [] => true | x :: a', y :: b' => Z.eqb x y && zl_eqb a' b' | _, _ => false end.
Definition SLOG : Type := list (list Z * bool).
Definition log_dec (l : SLOG) (cand : list Z) : SLOG * bool :=
  match l with
  | (c, ok) :: r => if zl_eqb c cand then (r, ok) else ([], false)
  | [] => ([], false)
  end.
(* (log, ops) -> accepted candidates (each prefixed by its length), -1, pending buffer, -1, unused log entries *)
Definition run_stream (c : SLOG * list sop) : list Z :=
  let '(log, ops) := c in
  let w := srun SLOG log_dec {| disp := log; buffer := []; accepted := [] |} ops in
  flat_map (fun l => Z.of_nat (length l) :: l) (accepted SLOG w) ++ [-1] ++ concat (buffer SLOG w) ++ [-1; Z.of_nat (length (disp SLOG w))].
