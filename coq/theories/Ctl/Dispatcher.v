(* Hand-written model of the top-level dispatcher FakeModule._decode / decode (protocols/__init__.py 677-823).
   Per-protocol decoding is a parameter [pdecode] acting on an abstract per-protocol state, so the theorems hold
   for whatever the protocol decoders do; the correspondence check instantiates it with the logged outcomes of
   the real decoders (trace oracle). *)
From Coq Require Import ZArith List Bool Lia ZifyBool.
Require Import PyIR.Base.Result PyIR.Engine.Match.
Import ListNotations.
Open Scope Z_scope.

Record code := { c_pid : nat; c_key : Z }.
Definition code_eqb (a b : code) : bool := Nat.eqb (c_pid a) (c_pid b) && (c_key a =? c_key b).

Inductive outcome := OCode (c : code) | OErr (e : irerr) | OPy (e : pyerr).

Record pconf := { enabled : bool; nominal : Z; ftol : Z }.

Record dstate := { last_code : option code; last_decoder : option nat }.

Inductive dresult := RNone | RCode (c : code) | RRaise (e : irerr) | RRaisePy (e : pyerr).

Definition is_rep_err (e : irerr) : bool :=
  match e with RepeatLeadInError | RepeatLeadOutError | RepeatTimeoutExpired | ExpectingMoreData => true | _ => false end.

Section Dispatch.
  Variable PS : Type.                                     (* state of all protocol instances *)
  Variable pdecode : nat -> PS -> PS * outcome.           (* decoders[p].decode(data, frequency) on the current input *)
  Variable saved : nat -> option code.                    (* a code stored on decoder p (for code in decoder) equal to the input *)

  Definition possible (cfg : list pconf) (freq : Z) (p : nat) : bool :=
    match nth_error cfg p with
    | Some c => enabled c && ((freq =? 0) || matchb (ftol c) freq (nominal c))
    | None => false
    end.

  Definition R : Type := (PS * dstate * dresult)%type.

  (* one try-block: call decoder p; [on_code] stores the result, [on_lead_in] is the RepeatLeadInError handler,
     [fallback] is what follows `except DecodeError: pass` *)
  Definition attempt (p : nat) (ps : PS) (st : dstate)
             (on_code : PS -> code -> R) (on_lead_in : PS -> R) (on_more : PS -> R) (fallback : PS -> R) : R :=
    let '(ps', o) := pdecode p ps in
    match o with
    | OCode c => on_code ps' c
    | OErr e =>
        if is_decode_error e then fallback ps'
        else match e with
             | RepeatLeadInError => on_lead_in ps'
             | ExpectingMoreData => on_more ps'        (* first part of a multi-part code: nothing to report yet *)
             | RepeatLeadOutError | RepeatTimeoutExpired => (ps', st, RNone)
             | _ => (ps', st, RRaise e)                (* unreachable: the remaining errors are DecodeErrors *)
             end
    | OPy e => (ps', st, RRaisePy e)
    end.

  (* the scan over the possible decoders, in registration order *)
  Fixpoint scan (cfg : list pconf) (freq : Z) (ps : PS) (st : dstate) (todo : list nat) : R :=
    match todo with
    | [] => (ps, st, RNone)
    | p :: r =>
        if possible cfg freq p then
          match saved p with
          | Some c =>                                   (* `for code in decoder: if code == data: break`: no decode call *)
              (ps, {| last_code := Some c; last_decoder := Some p |}, RCode c)
          | None =>
          attempt p ps st
            (fun ps' c => (ps', {| last_code := Some c; last_decoder := Some p |}, RCode c))
            (fun ps' => (ps', {| last_code := last_code st; last_decoder := Some p |}, RNone))
            (fun ps' => (ps', {| last_code := last_code st; last_decoder := Some p |}, RNone))
            (fun ps' => scan cfg freq ps' st r)
          end
        else scan cfg freq ps st r
    end.

  (* held_match: the outcome of  data == self._last_code  (normalised timings within tolerance) *)
  Definition dispatch (cfg : list pconf) (freq : Z) (held_match : bool) (ps : PS) (st : dstate) : R :=
    let via_scan ps := scan cfg freq ps st (seq 0 (length cfg)) in
    let keep ps' c := (ps', {| last_code := Some c; last_decoder := last_decoder st |}, RCode c) in
    let second ps :=                              (* the `elif self._last_decoder ...` block *)
      match last_decoder st with
      | Some ld =>
          if possible cfg freq ld then
            attempt ld ps st keep
              (fun ps' => match last_code st with
                          | Some lc => (ps', {| last_code := last_code st; last_decoder := Some (c_pid lc) |}, RNone)
                          | None => via_scan ps'
                          end)
              (fun ps' => (ps', st, RNone))
              via_scan
          else via_scan ps
      | None => via_scan ps
      end in
    match last_code st with
    | Some lc =>
        if possible cfg freq (c_pid lc) then
          if held_match then (ps, st, RNone)
          else attempt (c_pid lc) ps st keep
                 (fun ps' => (ps', {| last_code := last_code st; last_decoder := Some (c_pid lc) |}, RNone))
                 (fun ps' => (ps', st, RNone))
                 via_scan
        else second ps
    | None => second ps
    end.

  (* release callback FakeModule.__reset_last_code(code): forget the held key unless its timer is running again *)
  Definition reset_last_code (st : dstate) (c : code) (timer_running : bool) : dstate :=
    match last_code st with
    | Some lc => if code_eqb c lc && negb timer_running then {| last_code := None; last_decoder := last_decoder st |} else st
    | None => st
    end.
End Dispatch.

(* ------------------------------------------------------------------ traced execution: which decoders were called *)
Section Traced.
  Variable PS : Type.
  Variable pdecode : nat -> PS -> PS * outcome.
  Variable saved : nat -> option code.

  Definition TPS : Type := (PS * list (nat * outcome))%type.
  Definition tdecode (p : nat) (s : TPS) : TPS * outcome :=
    let '(ps', o) := pdecode p (fst s) in ((ps', snd s ++ [(p, o)]), o).

  (* a rejection that lets the dispatcher go on: a decode error, or a repeat lead-in marker (ignored when no key is held) *)
  Definition is_soft (o : outcome) : bool :=
    match o with OErr e => is_decode_error e || match e with RepeatLeadInError => true | _ => false end | _ => false end.
  Definition all_soft (l : list (nat * outcome)) : bool := forallb (fun q => is_soft (snd q)) l.

  (* [ext] = the decoder calls made; how they explain the result *)
  Definition explains (cfg : list pconf) (freq : Z) (must_try : list nat) (ext : list (nat * outcome)) (r : dresult) : Prop :=
    match r with
    | RCode c => (exists ext0 p, ext = ext0 ++ [(p, OCode c)] /\ all_soft ext0 = true /\ possible cfg freq p = true)
                 \/ (exists p, saved p = Some c /\ all_soft ext = true /\ possible cfg freq p = true)
    | RNone =>
        (all_soft ext = true /\ forall p, In p must_try -> possible cfg freq p = true -> In p (map fst ext))
        \/ (exists ext0 p e, ext = ext0 ++ [(p, OErr e)] /\ is_rep_err e = true /\ all_soft ext0 = true)
    | _ => True
    end.

  Lemma explains_prefix cfg freq must p o ext r : is_soft o = true -> explains cfg freq must ext r ->
    explains cfg freq (p :: must) ((p, o) :: ext) r.
  Proof.
    intros Ee H. destruct r; cbn [explains] in *; auto.
    - destruct H as [[F1 F2]|[ext0 [q [e' [F1 [F2 F3]]]]]].
      + left. split; [cbn; rewrite Ee; exact F1|].
        intros q [<-|Hq] Hpq; [left; reflexivity|right; apply F2; assumption].
      + right. exists ((p, o) :: ext0), q, e'. split; [rewrite F1; reflexivity|]. split; [exact F2|].
        cbn. rewrite Ee. exact F3.
    - destruct H as [[ext0 [q [F1 [F2 F3]]]]|[q [F1 [F2 F3]]]].
      + left. exists ((p, o) :: ext0), q. split; [rewrite F1; reflexivity|].
        split; [cbn; rewrite Ee; exact F2|exact F3].
      + right. exists q. split; [exact F1|]. split; [cbn; rewrite Ee; exact F2|exact F3].
  Qed.

  Lemma explains_weaken cfg freq must must' ext r :
    (forall p, In p must' -> possible cfg freq p = true -> In p must \/ In p (map fst ext)) ->
    explains cfg freq must ext r -> explains cfg freq must' ext r.
  Proof.
    intros Hm H. destruct r; cbn [explains] in *; auto.
    destruct H as [[F1 F2]|F]; [left|right; exact F]. split; [exact F1|].
    intros p Hp Hpp. destruct (Hm p Hp Hpp) as [H|H]; [apply F2; assumption|exact H].
  Qed.

  Lemma scan_explains cfg freq : forall todo ps tr st s' st' r,
    scan TPS tdecode saved cfg freq (ps, tr) st todo = (s', st', r) ->
    exists ext, snd s' = tr ++ ext /\ explains cfg freq todo ext r.
  Proof.
    induction todo as [|p rest IH]; intros ps tr st s' st' r H; cbn [scan] in H.
    - injection H as <- <- <-. exists []. cbn. rewrite app_nil_r. split; [reflexivity|]. left. split; [reflexivity|]. intros p [].
    - destruct (possible cfg freq p) eqn:Ep.
      + destruct (saved p) as [sc|] eqn:Es.
        { injection H as <- <- <-. exists []. cbn [snd]. rewrite app_nil_r. split; [reflexivity|].
          right. exists p. repeat split; auto. }
        unfold attempt, tdecode in H. cbn [fst snd] in H. destruct (pdecode p ps) as [ps1 o] eqn:Ed.
        destruct o as [c|e|e].
        * injection H as <- <- <-. exists [(p, OCode c)]. split; [reflexivity|]. left. exists [], p. repeat split; auto.
        * destruct (is_decode_error e) eqn:Ee.
          -- destruct (IH _ _ _ _ _ _ H) as [ext [E1 E2]]. exists ((p, OErr e) :: ext).
             split; [rewrite E1, <- app_assoc; reflexivity|]. apply explains_prefix; [cbn; rewrite Ee; reflexivity|exact E2].
          -- exists [(p, OErr e)]. destruct e; cbn in Ee; try discriminate; injection H as <- <- <-;
             (split; [reflexivity|]); cbn [explains]; auto; right; eexists [], p, _; (split; [reflexivity|split; reflexivity]).
        * injection H as <- <- <-. exists [(p, OPy e)]. split; [reflexivity|exact I].
      + destruct (IH _ _ _ _ _ _ H) as [ext [E1 E2]]. exists ext. split; [exact E1|].
        eapply explains_weaken; [|exact E2]. intros q [<-|Hq] Hpq; [congruence|left; exact Hq].
  Qed.

  (* scan after one soft rejection by decoder p *)
  Lemma scan_after cfg freq p o ps1 st s' st' r : is_soft o = true ->
    scan TPS tdecode saved cfg freq (ps1, [(p, o)]) st (seq 0 (length cfg)) = (s', st', r) ->
    explains cfg freq (seq 0 (length cfg)) (snd s') r.
  Proof.
    intros Hs H. destruct (scan_explains _ _ _ _ _ _ _ _ _ H) as [ext [E1 E2]]. rewrite E1. cbn [app].
    eapply explains_weaken; [|apply explains_prefix; [exact Hs|exact E2]].
    intros q Hq _. left. right. exact Hq.
  Qed.

  (* C11.  A call that returns a code returns exactly the code one decoder produced in this very call, that decoder is
     enabled and frequency-compatible, and every decoder asked before it rejected the input.  A call that returns
     nothing either found the timings equal to the held key, or a decoder signalled a repeat marker, or every decoder
     it may use was asked and rejected the input. *)
  Theorem dispatch_explained cfg freq hm ps st s' st' r :
    dispatch TPS tdecode saved cfg freq hm (ps, []) st = (s', st', r) ->
    (hm = true /\ r = RNone /\ snd s' = [] /\ exists lc, last_code st = Some lc /\ possible cfg freq (c_pid lc) = true)
    \/ explains cfg freq (seq 0 (length cfg)) (snd s') r.
  Proof.
    unfold dispatch. intros H.
    (* the three shapes every branch ends in *)
    assert (forall s1 st1 r1, scan TPS tdecode saved cfg freq (ps, []) st (seq 0 (length cfg)) = (s1, st1, r1) ->
            explains cfg freq (seq 0 (length cfg)) (snd s1) r1) as Hscan0.
    { intros s1 st1 r1 Hs. destruct (scan_explains _ _ _ _ _ _ _ _ _ Hs) as [ext [E1 E2]]. rewrite E1. exact E2. }
    assert (forall p on_li, possible cfg freq p = true ->
              (forall ps1 s1 st1 r1, on_li (ps1, [(p, OErr RepeatLeadInError)]) = (s1, st1, r1) ->
                 explains cfg freq (seq 0 (length cfg)) (snd s1) r1) ->
              forall s1 st1 r1,
              attempt TPS tdecode p (ps, []) st
                (fun ps' c => (ps', {| last_code := Some c; last_decoder := last_decoder st |}, RCode c)) on_li
                (fun ps' => (ps', st, RNone))
                (fun ps' => scan TPS tdecode saved cfg freq ps' st (seq 0 (length cfg))) = (s1, st1, r1) ->
              explains cfg freq (seq 0 (length cfg)) (snd s1) r1) as Hatt.
    { intros p on_li Hp Hli s1 st1 r1 Ha. unfold attempt, tdecode in Ha. cbn [fst snd app] in Ha.
      destruct (pdecode p ps) as [ps1 o] eqn:Ed. destruct o as [c|e|e].
      - injection Ha as <- <- <-. left. exists [], p. repeat split; auto.
      - destruct (is_decode_error e) eqn:Ee.
        + eapply scan_after; [|exact Ha]. cbn. rewrite Ee. reflexivity.
        + destruct e; cbn in Ee; try discriminate.
          * eapply Hli. exact Ha.
          * injection Ha as <- <- <-. right. exists [], p, RepeatLeadOutError. repeat split; auto.
          * injection Ha as <- <- <-. right. exists [], p, RepeatTimeoutExpired. repeat split; auto.
          * injection Ha as <- <- <-. right. exists [], p, ExpectingMoreData. repeat split; auto.
      - injection Ha as <- <- <-. exact I. }
    destruct (last_code st) as [lc|] eqn:Elc.
    - destruct (possible cfg freq (c_pid lc)) eqn:Ep.
      + destruct hm.
        * injection H as <- <- <-. left. repeat split; auto. exists lc. auto.
        * right. eapply (Hatt (c_pid lc)); [exact Ep| |exact H].
          intros ps1 s1 st1 r1 E. injection E as <- <- <-. right. exists [], (c_pid lc), RepeatLeadInError. repeat split; auto.
      + right. destruct (last_decoder st) as [ld|] eqn:Eld; [|apply Hscan0 in H; exact H].
        destruct (possible cfg freq ld) eqn:Epl; [|apply Hscan0 in H; exact H].
        eapply (Hatt ld); [exact Epl| |exact H].
        intros ps1 s1 st1 r1 E. injection E as <- <- <-. right. exists [], ld, RepeatLeadInError. repeat split; auto.
    - right. destruct (last_decoder st) as [ld|] eqn:Eld; [|apply Hscan0 in H; exact H].
      destruct (possible cfg freq ld) eqn:Epl; [|apply Hscan0 in H; exact H].
      eapply (Hatt ld); [exact Epl| |exact H].
      intros ps1 s1 st1 r1 E. eapply scan_after; [|exact E]. reflexivity.
  Qed.

  (* C10: a returned code comes from an enabled, frequency-compatible decoder (corollary) *)
  Corollary dispatch_possible cfg freq hm ps st s' st' c :
    dispatch TPS tdecode saved cfg freq hm (ps, []) st = (s', st', RCode c) ->
    exists p, possible cfg freq p = true /\ (In (p, OCode c) (snd s') \/ saved p = Some c).
  Proof.
    intros H. destruct (dispatch_explained _ _ _ _ _ _ _ _ H) as [[_ [E _]]|E]; [discriminate|].
    destruct E as [[ext0 [p [E1 [_ E3]]]]|[p [E1 [_ E3]]]].
    - exists p. split; [exact E3|]. left. rewrite E1. apply in_or_app. right. left. reflexivity.
    - exists p. split; [exact E3|]. right. exact E1.
  Qed.
End Traced.
