(* Executable interface of the dispatcher model for the trace-oracle correspondence: the per-protocol decoders
   are replaced by the log of what the real decoders answered, in call order. *)
From Coq Require Import ZArith List Bool.
Require Import PyIR.Base.Result PyIR.Ctl.Dispatcher.
Import ListNotations.
Open Scope Z_scope.

Definition LOG : Type := list (nat * outcome).
(* the model asks decoder p: it must be the next logged call, otherwise the run is marked as diverged *)
Definition log_decode (p : nat) (l : LOG) : LOG * outcome :=
  match l with
  | (q, o) :: r => if Nat.eqb p q then (r, o) else ([], OPy RuntimeError)
  | [] => ([], OPy AttributeError)
  end.

Definition enc_code (c : code) : list Z := [Z.of_nat (c_pid c); c_key c].
Definition enc_ocode (c : option code) : list Z := match c with Some c => 1 :: enc_code c | None => [0] end.
Definition enc_onat (c : option nat) : list Z := match c with Some n => [1; Z.of_nat n] | None => [0] end.
Definition enc_dresult (r : dresult) : list Z :=
  match r with
  | RNone => [0]
  | RCode c => 1 :: enc_code c
  | RRaise e => [2; irerr_code e]
  | RRaisePy e => [3; pyerr_code e]
  end.

(* stored codes equal to the input, per decoder, as the harness observed them before the call *)
Definition saved_of (l : list (nat * code)) (p : nat) : option code :=
  match find (fun q => Nat.eqb (fst q) p) l with Some q => Some (snd q) | None => None end.

Definition run_dispatch (c : list pconf * Z * bool * dstate * LOG * list (nat * code)) : list Z :=
  let '(cfg, freq, hm, st, log, sv) := c in
  let '(rest, st', r) := dispatch LOG log_decode (saved_of sv) cfg freq hm log st in
  enc_dresult r ++ enc_ocode (last_code st') ++ enc_onat (last_decoder st') ++ [Z.of_nat (length rest)].
