(* Hand-written model of the release timer (ir_code.Timer) and the two worker queues it talks to
   (thread_worker.TimerThreadWorker / ProcessThreadWorker), under a virtual microsecond clock.
   Operations are the atomic steps of the source: Timer.start, Timer.stop, Timer.cancel, one polling pass of the
   timer worker, advancing the clock.  Output: the release notifications handed to the process worker. *)
From Coq Require Import ZArith List Bool Lia ZifyBool.
Import ListNotations.
Open Scope Z_scope.

Record timer := { armed : bool;        (* self.timer is not None *)
                  t_start : Z;         (* self.timer.start *)
                  adjusted : Z;        (* self._adjusted_duration, in tenths of a microsecond *)
                  duration : Z }.

(* adjusted duration = duration + duration*0.20 + elapsed*4, kept exact in tenths of a microsecond *)
Definition adjust (d elapsed : Z) : Z := 12 * d + 40 * elapsed.

Record world := { now : Z;
                  timers : list timer;          (* indexed by timer id *)
                  tqueue : list nat;            (* TimerThreadWorker.queue *)
                  released : list nat }.        (* ProcessThreadWorker.queue: release callbacks in order of queuing *)

Inductive top := Start (i : nat) (elapsed : Z) | Stop (i : nat) | Cancel (i : nat) | Poll | Advance (d : Z).

Fixpoint set_nth {A} (n : nat) (x : A) (l : list A) : list A :=
  match n, l with
  | _, [] => []
  | O, _ :: r => x :: r
  | S m, y :: r => y :: set_nth m x r
  end.

Definition mem_nat (i : nat) (l : list nat) : bool := existsb (Nat.eqb i) l.

(* Timer.run_func: True = remove from the polling queue.  [disarm_on_fire] is a fact of the source:
   whether run_func clears self.timer when it fires (it does after the repair). *)
Definition run_func (disarm_on_fire : bool) (nw : Z) (t : timer) : timer * bool * bool (* new timer, fired, remove *) :=
  if negb (armed t) then (t, false, true)
  else if adjusted t <=? 10 * (nw - t_start t)
       then ({| armed := negb disarm_on_fire; t_start := t_start t; adjusted := adjusted t; duration := duration t |}, true, true)
       else (t, false, false).

Fixpoint poll (dof : bool) (nw : Z) (q : list nat) (ts : list timer) (rel : list nat) : list nat * list timer * list nat :=
  match q with
  | [] => ([], ts, rel)
  | i :: r =>
      match nth_error ts i with
      | Some t =>
          let '(t', fired, remove) := run_func dof nw t in
          let ts' := set_nth i t' ts in
          let rel' := if fired then rel ++ [i] else rel in
          let '(q', ts'', rel'') := poll dof nw r ts' rel' in
          (if remove then q' else i :: q', ts'', rel'')
      | None => poll dof nw r ts rel
      end
  end.

Definition step (dof : bool) (w : world) (o : top) : world :=
  match o with
  | Start i el =>
      match nth_error (timers w) i with
      | Some t =>
          let t' := {| armed := true; t_start := now w; adjusted := adjust (duration t) el; duration := duration t |} in
          {| now := now w; timers := set_nth i t' (timers w);
             tqueue := if mem_nat i (tqueue w) then tqueue w else tqueue w ++ [i]; released := released w |}
      | None => w
      end
  | Stop i =>
      match nth_error (timers w) i with
      | Some t =>
          if armed t then
            {| now := now w;
               timers := set_nth i {| armed := false; t_start := t_start t; adjusted := adjusted t; duration := duration t |} (timers w);
               tqueue := tqueue w; released := released w ++ [i] |}
          else w
      | None => w
      end
  | Cancel i =>
      match nth_error (timers w) i with
      | Some t => {| now := now w;
                     timers := set_nth i {| armed := false; t_start := t_start t; adjusted := adjusted t; duration := duration t |} (timers w);
                     tqueue := tqueue w; released := released w |}
      | None => w
      end
  | Poll =>
      let '(q', ts', rel') := poll dof (now w) (tqueue w) (timers w) (released w) in
      {| now := now w; timers := ts'; tqueue := q'; released := rel' |}
  | Advance d => {| now := now w + d; timers := timers w; tqueue := tqueue w; released := released w |}
  end.

Definition run (dof : bool) (w : world) (ops : list top) : world := fold_left (step dof) ops w.

Definition init (durations : list Z) : world :=
  (* Timer.__init__ creates self.timer = TimerUS(): a new timer object is armed, but not yet polled *)
  {| now := 0; timers := map (fun d => {| armed := true; t_start := 0; adjusted := 10 * d; duration := d |}) durations;
     tqueue := []; released := [] |}.

(* executable interface for the correspondence check *)
Definition run_timers (c : bool * list Z * list top) : list Z :=
  let '(dof, ds, ops) := c in
  let w := run dof (init ds) ops in
  map Z.of_nat (released w) ++ [-1] ++ map Z.of_nat (tqueue w) ++ [-1] ++ map (fun t : timer => if armed t then 1 else 0) (timers w).
