(* C08 above the engine: what the dispatcher and the streaming thread do with whatever a protocol decoder throws.
   The dispatcher catches DecodeError (and subclasses) and the three repeat errors, nothing else (protocols/__init__.py
   705-778); DecodeThread.run has no guard around _decode (445-498).  So: if every decoder is "tame" the dispatcher
   never raises and the thread never dies - and one leaked exception anywhere is enough to do both. *)
From Coq Require Import ZArith List Bool Lia.
Require Import PyIR.Base.Result PyIR.IW.IW PyIR.Engine.Match PyIR.Engine.Parse PyIR.Engine.NoCrash PyIR.Engine.ParseM PyIR.Engine.ParseMProps PyIR.Proto.Descriptor PyIR.Proto.C03Check PyIR.Proto.RoundTrip
               PyIR.Ctl.Dispatcher PyIR.Ctl.Instance.
Import ListNotations.
Open Scope Z_scope.

(* a tame decoder returns a code or raises one of the library's IR errors (all of them are handled by the dispatcher
   since ExpectingMoreData is caught too) *)
Definition tame (o : outcome) : bool := match o with OCode _ | OErr _ => true | OPy _ => false end.
Definition quiet (r : dresult) : bool := match r with RNone | RCode _ => true | _ => false end.

Section Dispatch.
  Variable PS : Type.
  Variable pdecode : nat -> PS -> PS * outcome.
  Variable saved : nat -> option code.
  Hypothesis all_tame : forall p ps, tame (snd (pdecode p ps)) = true.

  Let R := (PS * dstate * dresult)%type.
  Definition quietR (r : R) : bool := quiet (snd r).

  Lemma attempt_quiet p ps st on_code on_li on_more fb :
    (forall ps' c, quietR (on_code ps' c) = true) -> (forall ps', quietR (on_li ps') = true) ->
    (forall ps', quietR (on_more ps') = true) ->
    (forall ps', quietR (fb ps') = true) -> quietR (attempt PS pdecode p ps st on_code on_li on_more fb) = true.
  Proof.
    intros H1 H2 H2' H3. unfold attempt. pose proof (all_tame p ps) as Ht. destruct (pdecode p ps) as [ps' o]. cbn [snd] in Ht.
    destruct o as [c|e|e]; [apply H1| |discriminate Ht].
    destruct (is_decode_error e) eqn:Ed; [apply H3|].
    destruct e; try discriminate Ed; try apply H2; try apply H2'; reflexivity.
  Qed.

  Lemma scan_quiet cfg freq : forall todo ps st, quietR (scan PS pdecode saved cfg freq ps st todo) = true.
  Proof.
    induction todo as [|p r IH]; intros ps st; cbn [scan]; [reflexivity|].
    destruct (possible cfg freq p); [|apply IH].
    destruct (saved p); [reflexivity|].
    apply attempt_quiet; intros; try reflexivity. apply IH.
  Qed.

  (* every decoder tame  ==>  the top-level decode returns None or a code, whatever the input, state and configuration *)
  Theorem dispatch_never_raises cfg freq held_match ps st :
    quietR (dispatch PS pdecode saved cfg freq held_match ps st) = true.
  Proof.
    unfold dispatch.
    assert (forall ps0, quietR (scan PS pdecode saved cfg freq ps0 st (seq 0 (length cfg))) = true) as Hs by (intros; apply scan_quiet).
    destruct (last_code st) as [lc|].
    - destruct (possible cfg freq (c_pid lc)).
      + destruct held_match; [reflexivity|]. apply attempt_quiet; intros; try reflexivity. apply Hs.
      + destruct (last_decoder st) as [ld|]; [|apply Hs]. destruct (possible cfg freq ld); [|apply Hs].
        apply attempt_quiet; intros; try reflexivity. apply Hs.
    - destruct (last_decoder st) as [ld|]; [|apply Hs]. destruct (possible cfg freq ld); [|apply Hs].
      apply attempt_quiet; intros; try reflexivity; apply Hs.
  Qed.
End Dispatch.

(* the converse direction, for one decoder: a leaked exception of the first decoder tried goes straight through *)
Theorem leak_goes_through PS pdecode saved cfg freq ps st p r e ps' :
  possible cfg freq p = true -> saved p = None -> pdecode p ps = (ps', OPy e) ->
  snd (scan PS pdecode saved cfg freq ps st (p :: r)) = RRaisePy e.
Proof. intros Hp Hs Hd. cbn [scan]. rewrite Hp, Hs. unfold attempt. rewrite Hd. reflexivity. Qed.

(* ------------------------------------------------------------------ the streaming thread *)
Section Thread.
  Variable St : Type.
  Variable dec : St -> list Z -> St * option bool.       (* None: self.decoder._decode raised *)

  Definition cut_here (tmp' : list Z) (x : Z) : bool := (3 <? Z.of_nat (length tmp')) && (x <? -2000).

  (* the run loop over the merged buffer; the last component: is the thread still alive *)
  Fixpoint tscan (s : St) (tmp buf : list Z) (n : nat) : St * list Z * nat * bool :=
    match buf with
    | [] => (s, tmp, n, true)
    | x :: r =>
        let tmp' := tmp ++ [x] in
        if cut_here tmp' x then
          match dec s tmp' with
          | (s', Some true) => tscan s' [] r (S n)
          | (s', Some false) => tscan s' tmp' r n
          | (s', None) => (s', tmp', n, false)          (* the exception leaves run(): the thread is gone *)
          end
        else tscan s tmp' r n
    end.

  Theorem thread_survives : (forall s d, snd (dec s d) <> None) ->
    forall buf s tmp n, snd (tscan s tmp buf n) = true.
  Proof.
    intros Hd. induction buf as [|x r IH]; intros s tmp n; cbn [tscan]; [reflexivity|].
    destruct (cut_here (tmp ++ [x]) x); [|apply IH].
    pose proof (Hd s (tmp ++ [x])) as H. destruct (dec s (tmp ++ [x])) as [s' [[|]|]]; cbn [snd] in H; [apply IH|apply IH|congruence].
  Qed.

  Theorem thread_dies_on_first_raise s tmp x r n s' :
    cut_here (tmp ++ [x]) x = true -> dec s (tmp ++ [x]) = (s', None) ->
    snd (tscan s tmp (x :: r) n) = false.
  Proof. intros Hc Hd. cbn [tscan]. rewrite Hc, Hd. reflexivity. Qed.
End Thread.

(* ------------------------------------------------------------------ one decoder instance (classes that do not override decode) *)
Lemma base_decode_no_pyerr D t tol frame : is_pyerr (base_decode D t tol frame) = false.
Proof.
  unfold base_decode. pose proof (parseC_no_pyerr tol (d_lead_in D) (d_lead_out D) t frame) as H.
  destruct (parseC tol (d_lead_in D) (d_lead_out D) t frame) as [p| | |]; cbn [bind]; try reflexivity; [|discriminate].
  destruct (_ <? _); [reflexivity|]. destruct (_ <? _); reflexivity.
Qed.

(* any descriptor, any state (a key held or not), any frame *)
Theorem decode_inst_no_pyerr D t tol s frame : is_pyerr (snd (fst (decode_inst D t tol s frame))) = false.
Proof.
  pose proof (base_decode_no_pyerr D t tol frame) as Hb.
  unfold decode_inst.
  assert (is_pyerr (snd (fst (match base_decode D t tol frame with
    | Ok c => match held s with
              | Some h => if zlist_eqb (ident D h) (ident D c) then (s, Ok h, false) else ({| held := Some c |}, Ok c, true)
              | None => ({| held := Some c |}, Ok c, false) end
    | IRErr e => (s, IRErr e, false) | PyErr e => (s, PyErr e, false) | EncErr => (s, EncErr, false) end))) = false) as Hfull.
  { destruct (base_decode D t tol frame); try reflexivity; [|discriminate]. destruct (held s); [destruct (zlist_eqb _ _)|]; reflexivity. }
  destruct (held s) as [h|]; [|exact Hfull].
  destruct (negb (is_nil (d_rep_lead_in D)) || negb (is_nil (d_rep_lead_out D))); [|exact Hfull].
  destruct (as_pairs (d_rep_bursts D)) as [rt|]; [|exact Hfull].
  pose proof (parseH_no_pyerr tol (d_rep_lead_in D) (d_rep_lead_out D) rt frame) as Hr.
  destruct (parseH tol (d_rep_lead_in D) (d_rep_lead_out D) rt frame); try reflexivity; try exact Hfull; [|discriminate].
  destruct (is_nil rt); [reflexivity|]. destruct (zlist_eqb _ _); [reflexivity|].
  clear -Hfull. destruct (base_decode D t tol frame); try exact Hfull.
  destruct (zlist_eqb _ _); exact Hfull.
Qed.

(* ... and therefore every frame of every sequence fed to one instance *)
Theorem run_seq_no_pyerr D t tol : forall frames s, Forall (fun r => is_pyerr r = false) (run_seq D t tol s frames).
Proof.
  induction frames as [|f r IH]; intros s; cbn [run_seq]; [constructor|].
  pose proof (decode_inst_no_pyerr D t tol s f) as H.
  destruct (decode_inst D t tol s f) as [[s' o] b]. constructor; [exact H|apply IH].
Qed.
