(* Decoder instance state: IrProtocolBase.decode (protocol_base.py 366-444) for a class that does not override decode,
   with the held key (_last_code) — the repeat branch, the full parse and the held-key comparison. *)
From Coq Require Import ZArith List Bool Lia ZifyBool String.
Require Import PyIR.Base.Result PyIR.IW.IW PyIR.Engine.Match PyIR.Engine.Render PyIR.Engine.RenderProps
               PyIR.Engine.Parse PyIR.Engine.ParseProps PyIR.Engine.RoundTripH
               PyIR.Proto.Descriptor PyIR.Proto.Model PyIR.Proto.Shape PyIR.Proto.C03Check PyIR.Proto.RoundTrip PyIR.Engine.Tolerance.
Import ListNotations.
Open Scope Z_scope.

(* ------------------------------------------------------------------ the repeat-shape parse with an empty symbol table *)
Lemma lead_in_loop_empty_len tol : forall li code cl code' cl',
  lead_in_loop tol [] li code cl = Ok (code', cl') -> List.length code = (List.length li + List.length code')%nat.
Proof.
  induction li as [|e li IH]; intros code cl code' cl' H; cbn [lead_in_loop] in H.
  - injection H as <- <-. reflexivity.
  - destruct code as [|b code]; [discriminate|]. destruct (matchb tol b e); [|cbn in H; discriminate].
    apply IH in H. cbn [List.length]. lia.
Qed.

Lemma py_pop_len l p x l' : py_pop l p = Some (x, l') -> List.length l = S (List.length l').
Proof.
  unfold py_pop. destruct ((_ <? 0) || (_ <=? _)); [discriminate|].
  destruct (nth_error l (Z.to_nat _)) as [y|] eqn:E; [|discriminate]. intros [= <- <-].
  apply nth_error_split in E as [a [b [-> El]]]. rewrite <- El, remove_at_app, !app_length. cbn [List.length]. lia.
Qed.

Lemma lead_out_step_empty tol tt L i e st st' : lead_out_step tol tt [] L i e st = Ok st' ->
  List.length (lo_code st) = S (List.length (lo_code st')) /\ lo_half st' = lo_half st.
Proof.
  unfold lead_out_step. destruct (py_pop (lo_code st) _) as [[b code']|] eqn:Ep; [|discriminate].
  apply py_pop_len in Ep. cbn [map find].
  destruct (matchb tol b e); [intros [= <-]; cbn; auto|].
  destruct (_ && matchb tol e (tt + Z.abs b)); [intros [= <-]; cbn; auto|].
  destruct (lo_clean st); discriminate.
Qed.

Lemma lead_out_loop_empty tol tt L : forall lo i st st',
  Forall (fun e => e <> PLACEHOLDER) lo ->
  lead_out_loop tol tt [] L i lo st = Ok st' ->
  List.length (lo_code st) = (List.length lo + List.length (lo_code st'))%nat /\ lo_half st' = lo_half st.
Proof.
  induction lo as [|e lo IH]; intros i st st' Hph H; cbn [lead_out_loop] in H.
  - injection H as <-. split; reflexivity.
  - inversion Hph as [|? ? He Hph']; subst. destruct (e =? PLACEHOLDER) eqn:E; [lia|].
    destruct (lead_out_step tol tt [] L i e st) as [st1| | |] eqn:Es; cbn [bind] in H; try discriminate.
    destruct (lead_out_step_empty _ _ _ _ _ _ _ Es) as [E1 E2]. destruct (IH _ _ _ Hph' H) as [E3 E4].
    cbn [List.length]. split; [lia|congruence].
Qed.

(* With an empty symbol table (the repeat shape of IrProtocolBase.decode when _repeat_bursts is empty) only inputs of
   exactly len(lead_in) + len(lead_out) durations are accepted - whatever the durations are. *)
Theorem repeat_parse_length tol rli rlo ds p :
  Forall (fun e => e <> PLACEHOLDER) rlo ->
  parseH tol rli rlo [] ds = Ok p -> List.length ds = (List.length rli + List.length rlo)%nat.
Proof.
  intros Hph. unfold parseH. destruct (negb (period_precheck tol rlo ds)); [discriminate|].
  destruct (lead_in_loop tol [] rli ds []) as [[code1 cl1]| | |] eqn:E1; cbn [bind]; try discriminate.
  destruct (lead_out_loop tol (total_time ds) [] _ 0 rlo _) as [st| | |] eqn:E2; cbn [bind]; try discriminate.
  apply lead_in_loop_empty_len in E1. destruct (lead_out_loop_empty _ _ _ _ _ _ _ Hph E2) as [E3 E4].
  cbn [lo_code lo_half] in E3, E4. rewrite E4, app_nil_r.
  destruct (lo_code st) as [|d r] eqn:Ec; [|cbn; discriminate].
  intros _. cbn [List.length] in E3. lia.
Qed.

(* ------------------------------------------------------------------ instance model (classes that do not override decode) *)
(* the identity of a code: the values of its _code_order fields *)
Definition ident (D : desc) (flds : list iw) : list Z :=
  map (fun cw => match find (fun q => String.eqb (fst (fst (fst q))) (fst cw)) (combine (d_params D) flds) with
                 | Some q => value (snd q) | None => -1 end) (d_code_order D).

Definition zlist_eqb (a b : list Z) : bool :=
  Nat.eqb (List.length a) (List.length b) && forallb (fun p => fst p =? snd p) (combine a b).

Record inst := { held : option (list iw) }.
Definition fresh : inst := {| held := None |}.

(* outcome plus the effect "the held key's release timer was stopped" *)
Definition decode_inst (D : desc) (t : ptable) (tol : Z) (s : inst) (frame : list Z) : inst * result (list iw) * bool :=
  let full :=
    match base_decode D t tol frame with
    | Ok c =>
        match held s with
        | Some h => if zlist_eqb (ident D h) (ident D c) then (s, Ok h, false)
                    else ({| held := Some c |}, Ok c, true)
        | None => ({| held := Some c |}, Ok c, false)
        end
    | IRErr e => (s, IRErr e, false)
    | PyErr e => (s, PyErr e, false)
    | EncErr => (s, EncErr, false)
    end in
  match held s with
  | Some h =>
      if negb (is_nil (d_rep_lead_in D)) || negb (is_nil (d_rep_lead_out D)) then
        match as_pairs (d_rep_bursts D) with
        | Some rt =>
            match parseH tol (d_rep_lead_in D) (d_rep_lead_out D) rt frame with
            | Ok p =>
                if is_nil rt then (s, Ok h, false)
                else
                  let c := map (fun q => get_value (d_msb D) (p_bits p) (snd (fst q)) (snd q)) (d_params D) in
                  if zlist_eqb (ident D h) (ident D c) then (s, Ok h, false)
                  else
                    (* the source stops the held key's timer and raises DecodeError INSIDE the try whose handler is
                       `except IRException: pass`: the frame goes on to the full parse *)
                    let '(s', r, _) := full in (s', r, true)
            | IRErr _ => full
            | PyErr e => (s, PyErr e, false)
            | EncErr => (s, EncErr, false)
            end
        | None => full
        end
      else full
  | None => full
  end.

(* ------------------------------------------------------------------ C07: a full frame never takes the repeat branch *)
Lemma lead_in_loop_kind tol t : forall li code cl,
  (exists r, lead_in_loop tol t li code cl = Ok r) \/ (exists e, lead_in_loop tol t li code cl = IRErr e).
Proof.
  induction li as [|e li IH]; intros code cl; cbn [lead_in_loop]; [left; eexists; reflexivity|].
  destruct code as [|b code]; [right; eexists; reflexivity|].
  destruct (matchb tol b e); [apply IH|]. destruct (find _ _); [apply IH|right; eexists; reflexivity].
Qed.
Lemma lead_out_loop_kind tol tt t L : forall lo i st,
  (exists r, lead_out_loop tol tt t L i lo st = Ok r) \/ (exists e, lead_out_loop tol tt t L i lo st = IRErr e).
Proof.
  induction lo as [|e lo IH]; intros i st; cbn [lead_out_loop]; [left; eexists; reflexivity|].
  destruct (e =? PLACEHOLDER); [left; eexists; reflexivity|].
  destruct (lead_out_step_kind tol tt t L i e st) as [[st' E]|[err E]]; rewrite E; cbn [bind]; [apply IH|right; eexists; reflexivity].
Qed.

Lemma finish_cleaned_not_enc lo c : finish_cleaned lo c <> EncErr.
Proof.
  unfold finish_cleaned. destruct c; [discriminate|]. destruct (has_none_inner _); [discriminate|].
  destruct (last _ _); [discriminate|]. destruct (last_opt lo); discriminate.
Qed.
Lemma data_loop_not_enc tol t : forall ds prs cl, data_loop tol t prs cl ds <> EncErr.
Proof. induction ds as [|d ds IH]; intros prs cl; cbn [data_loop]; [discriminate|]. destruct (first_match _ _ _); [apply IH|discriminate]. Qed.
Lemma to_syms_not_enc t : forall prs, to_syms t prs <> EncErr.
Proof.
  induction prs as [|p prs IH]; cbn [to_syms]; [discriminate|].
  destruct p as [|m [|s0 [|x q]]]; try discriminate.
  - destruct prs; [|discriminate]. destruct (find _ t); [|discriminate]. destruct (index_of _ _ _); discriminate.
  - destruct (index_of _ _ _); [|discriminate]. destruct (to_syms t prs) as [[l ex]|e|e|]; cbn [bind]; try discriminate. contradiction.
Qed.

Lemma repeat_parse_mismatch tol rli rlo ds :
  Forall (fun e => e <> PLACEHOLDER) rlo -> List.length ds <> (List.length rli + List.length rlo)%nat ->
  exists e, parseH tol rli rlo [] ds = IRErr e.
Proof.
  intros Hph Hlen. destruct (parseH tol rli rlo [] ds) as [p|e|e|] eqn:E.
  - exfalso. apply Hlen. eapply repeat_parse_length; eauto.
  - eexists; reflexivity.
  - exfalso. unfold parseH in E. destruct (negb (period_precheck tol rlo ds)); [discriminate|].
    destruct (lead_in_loop_kind tol [] rli ds []) as [[[c1 cl1] E1]|[e1 E1]]; rewrite E1 in E; cbn [bind] in E; [|discriminate].
    match type of E with context [lead_out_loop ?a ?b ?c ?d ?e ?f ?g] =>
      destruct (lead_out_loop_kind a b c d f e g) as [[st E2]|[e2 E2]]; rewrite E2 in E; cbn [bind] in E; [|discriminate] end.
    destruct (lo_code st ++ lo_half st) as [|x r] eqn:Ec; [|cbn [data_loop first_match vals flat_map bind] in E; discriminate].
    pose proof (lead_in_loop_empty_len _ _ _ _ _ _ E1) as L1.
    destruct (lead_out_loop_empty _ _ _ _ _ _ _ Hph E2) as [L2 L3]. cbn [lo_code lo_half] in L2, L3.
    rewrite L3, app_nil_r in Ec. rewrite Ec in L2. cbn [List.length] in L2. lia.
  - exfalso. unfold parseH in E. destruct (negb (period_precheck tol rlo ds)); [discriminate|].
    destruct (lead_in_loop_kind tol [] rli ds []) as [[[c1 cl1] E1]|[e1 E1]]; rewrite E1 in E; cbn [bind] in E; [|discriminate].
    match type of E with context [lead_out_loop ?a ?b ?c ?d ?e ?f ?g] =>
      destruct (lead_out_loop_kind a b c d f e g) as [[st E2]|[e2 E2]]; rewrite E2 in E; cbn [bind] in E; [|discriminate] end.
    destruct (data_loop tol [] [] [] (lo_code st ++ lo_half st)) as [[prs cl]|e0|e0|] eqn:Ed; cbn [bind] in E; try discriminate.
    + destruct (to_syms [] (rev prs)) as [[sy ex]|e0|e0|] eqn:Et; cbn [bind] in E; try discriminate.
      * match type of E with context [finish_cleaned ?a ?b] => destruct (finish_cleaned a b) eqn:Ef; cbn [bind] in E; try discriminate;
          exact (finish_cleaned_not_enc _ _ Ef) end.
      * exact (to_syms_not_enc _ _ Et).
    + exact (data_loop_not_enc _ _ _ _ _ Ed).
Qed.

Definition res_ident (D : desc) (r : result (list iw)) : result (list Z) :=
  match r with Ok c => Ok (ident D c) | IRErr e => IRErr e | PyErr e => PyErr e | EncErr => EncErr end.

Lemma zlist_eqb_true a b : zlist_eqb a b = true -> a = b.
Proof.
  unfold zlist_eqb. intros H. apply andb_true_iff in H as [H1 H2]. apply Nat.eqb_eq in H1.
  revert b H1 H2. induction a as [|x a IH]; intros [|y b] H1 H2; cbn in *; try discriminate; [reflexivity|].
  apply andb_true_iff in H2 as [H2 H3]. f_equal; [lia|]. apply IH; [lia|exact H3].
Qed.

(* C07 for classes that do not override decode and whose repeat frame is a fixed marker (_repeat_bursts empty):
   for EVERY decoder state (whatever key is held), every frame that does not have the length of the repeat marker
   is decoded to the same key, or rejected with the same error, as by a fresh decoder. *)
Theorem full_frame_history_independent D t tol s frame :
  d_rep_bursts D = [] -> Forall (fun e => e <> PLACEHOLDER) (d_rep_lead_out D) ->
  List.length frame <> (List.length (d_rep_lead_in D) + List.length (d_rep_lead_out D))%nat ->
  res_ident D (snd (fst (decode_inst D t tol s frame))) = res_ident D (snd (fst (decode_inst D t tol fresh frame))).
Proof.
  intros Hrb Hph Hlen. unfold decode_inst, fresh. cbn [held].
  set (full := fun (s0 : inst) => match base_decode D t tol frame with
                | Ok c => match held s0 with
                          | Some h => if zlist_eqb (ident D h) (ident D c) then (s0, Ok h, false) else ({| held := Some c |}, Ok c, true)
                          | None => ({| held := Some c |}, Ok c, false) end
                | IRErr e => (s0, IRErr e, false) | PyErr e => (s0, PyErr e, false) | EncErr => (s0, EncErr, false) end).
  assert (res_ident D (snd (fst (full s))) = res_ident D (snd (fst (full {| held := None |})))) as Hfull.
  { unfold full. destruct (base_decode D t tol frame) as [c|e|e|]; cbn [held fst snd res_ident]; try reflexivity.
    destruct (held s) as [h|]; [|reflexivity].
    destruct (zlist_eqb (ident D h) (ident D c)) eqn:E; cbn [fst snd res_ident]; [|reflexivity].
    f_equal. apply zlist_eqb_true. exact E. }
  fold (full s). fold (full {| held := None |}).
  destruct (held s) as [h|] eqn:Eh; [|exact Hfull].
  destruct (negb (is_nil (d_rep_lead_in D)) || negb (is_nil (d_rep_lead_out D))); [|exact Hfull].
  rewrite Hrb. cbn [as_pairs].
  destruct (repeat_parse_mismatch tol (d_rep_lead_in D) (d_rep_lead_out D) frame Hph Hlen) as [e ->]. exact Hfull.
Qed.

(* ------------------------------------------------------------------ isolation of instances (C09), generically *)
(* any two state machines stepped in any interleaving: the outputs of one are those of running its own inputs alone *)
Section Isolation.
  Variables (S I O : Type) (step : S -> I -> S * O).
  Fixpoint run1 (s : S) (ops : list I) : list O :=
    match ops with [] => [] | i :: r => let '(s', o) := step s i in o :: run1 s' r end.
  (* ops tagged with the instance they address *)
  Fixpoint run2 (x y : S) (ops : list (bool * I)) : list (bool * O) :=
    match ops with
    | [] => []
    | (true, i) :: r => let '(x', o) := step x i in (true, o) :: run2 x' y r
    | (false, i) :: r => let '(y', o) := step y i in (false, o) :: run2 x y' r
    end.
  Definition proj {A} (b : bool) (l : list (bool * A)) : list A := map snd (filter (fun p => Bool.eqb (fst p) b) l).

  Theorem instances_isolated : forall ops x y, proj true (run2 x y ops) = run1 x (proj true ops).
  Proof.
    induction ops as [|[[|] i] r IH]; intros x y; [reflexivity| |].
    - cbn [run2]. unfold proj at 2. cbn [filter fst Bool.eqb map snd]. fold (proj true r). cbn [run1].
      destruct (step x i) as [x' o]. unfold proj at 1. cbn [filter fst Bool.eqb map snd]. fold (proj true (run2 x' y r)).
      rewrite IH. reflexivity.
    - cbn [run2]. destruct (step y i) as [y' o]. unfold proj at 1 2. cbn [filter fst Bool.eqb map snd].
      fold (proj true (run2 x y' r)). fold (proj true r). apply IH.
  Qed.
End Isolation.

(* ------------------------------------------------------------------ C06: a held key decodes as the same code on every frame *)
Fixpoint run_seq (D : desc) (t : ptable) (tol : Z) (s : inst) (frames : list (list Z)) : list (result (list iw)) :=
  match frames with
  | [] => []
  | f :: r => let '(s', o, _) := decode_inst D t tol s f in o :: run_seq D t tol s' r
  end.

Lemma zlist_eqb_refl a : zlist_eqb a a = true.
Proof.
  unfold zlist_eqb. rewrite Nat.eqb_refl. cbn [andb]. induction a as [|x a IH]; [reflexivity|].
  cbn [combine forallb fst snd]. rewrite Z.eqb_refl. exact IH.
Qed.

(* a frame of the held key: through the full parse it comes back as the held code *)
Lemma held_full_frame D t tol c F :
  d_rep_bursts D = [] -> Forall (fun e => e <> PLACEHOLDER) (d_rep_lead_out D) ->
  List.length F <> (List.length (d_rep_lead_in D) + List.length (d_rep_lead_out D))%nat ->
  base_decode D t tol F = Ok c ->
  decode_inst D t tol {| held := Some c |} F = ({| held := Some c |}, Ok c, false).
Proof.
  intros Hrb Hph Hlen Hb. unfold decode_inst. cbn [held]. rewrite Hb, zlist_eqb_refl.
  destruct (negb (is_nil (d_rep_lead_in D)) || negb (is_nil (d_rep_lead_out D))); [|reflexivity].
  rewrite Hrb. cbn [as_pairs]. destruct (repeat_parse_mismatch tol _ _ F Hph Hlen) as [e ->]. reflexivity.
Qed.

(* the repeat marker while a key is held: the held code *)
Lemma held_marker D t tol c R p :
  d_rep_bursts D = [] -> negb (is_nil (d_rep_lead_in D)) || negb (is_nil (d_rep_lead_out D)) = true ->
  parseH tol (d_rep_lead_in D) (d_rep_lead_out D) [] R = Ok p ->
  decode_inst D t tol {| held := Some c |} R = ({| held := Some c |}, Ok c, false).
Proof. intros Hrb Hne Hp. unfold decode_inst. cbn [held]. rewrite Hne, Hrb. cbn [as_pairs]. rewrite Hp. reflexivity. Qed.

(* full frame followed by n repeat markers (NEC style), and the full frame sent n+1 times (Sony style):
   every frame of the sequence yields the code of the first one *)
Theorem held_key_marker_sequence D t tol c F R p n :
  d_rep_bursts D = [] -> negb (is_nil (d_rep_lead_in D)) || negb (is_nil (d_rep_lead_out D)) = true ->
  base_decode D t tol F = Ok c -> parseH tol (d_rep_lead_in D) (d_rep_lead_out D) [] R = Ok p ->
  run_seq D t tol fresh (F :: repeat R n) = repeat (Ok c) (S n).
Proof.
  intros Hrb Hne Hb Hp. cbn [run_seq repeat]. unfold decode_inst at 1. cbn [fresh held]. rewrite Hb. f_equal.
  induction n as [|n IH]; [reflexivity|]. cbn [repeat run_seq]. rewrite (held_marker D t tol c R p Hrb Hne Hp). f_equal. exact IH.
Qed.

Theorem held_key_same_frame_sequence D t tol c F n :
  d_rep_bursts D = [] -> Forall (fun e => e <> PLACEHOLDER) (d_rep_lead_out D) ->
  List.length F <> (List.length (d_rep_lead_in D) + List.length (d_rep_lead_out D))%nat ->
  base_decode D t tol F = Ok c ->
  run_seq D t tol fresh (repeat F (S n)) = repeat (Ok c) (S n).
Proof.
  intros Hrb Hph Hlen Hb. cbn [run_seq repeat]. unfold decode_inst at 1. cbn [fresh held]. rewrite Hb. f_equal.
  induction n as [|n IH]; [reflexivity|]. cbn [repeat run_seq]. rewrite (held_full_frame D t tol c F Hrb Hph Hlen Hb). f_equal. exact IH.
Qed.

(* a bare repeat marker on a decoder with no history never invents a key: it goes through the full parse *)
Theorem marker_without_history D t tol R :
  snd (fst (decode_inst D t tol fresh R)) = base_decode D t tol R.
Proof. unfold decode_inst, fresh. cbn [held]. destruct (base_decode D t tol R); reflexivity. Qed.

(* ------------------------------------------------------------------ executable interface *)
Definition enc_fields (l : list iw) : list Z := flat_map (fun x => [value x; nbits x]) l.
(* (descriptor, tolerance, frames) -> per frame: outcome code, or 0 followed by the field values *)
Definition run_instance (c : desc * Z * list (list Z)) : list Z :=
  let '(D, tol, frames) := c in
  match as_pairs (d_bursts D) with
  | Some t => flat_map (fun r => let e := enc_result (fun l => map value l) r in Z.of_nat (List.length e) :: e)
                       (run_seq D t tol fresh frames)
  | None => [-99]
  end.
