(* Outcome of every modelled Python call: a value, one of the library's own IR errors, a leaked
   Python exception, or the library's EncodeError.  A place where Python would raise IndexError is an
   explicit [PyErr IndexError] in the models, never a defaulted [nth]. *)
From Coq Require Import ZArith List.
Import ListNotations.

Inductive irerr :=
  | DecodeError | LeadInError | LeadOutError | IRStreamError | TooManyBitsError | NotEnoughBitsError
  | RepeatLeadInError | RepeatLeadOutError | RepeatTimeoutExpired | ExpectingMoreData.
Inductive pyerr := IndexError | ValueError | TypeError | AttributeError | KeyError | ZeroDivisionError | RuntimeError.

Inductive result (A : Type) :=
  | Ok (a : A) | IRErr (e : irerr) | PyErr (e : pyerr) | EncErr.
Arguments Ok {A} a. Arguments IRErr {A} e. Arguments PyErr {A} e. Arguments EncErr {A}.

Definition bind {A B} (r : result A) (f : A -> result B) : result B :=
  match r with Ok a => f a | IRErr e => IRErr e | PyErr e => PyErr e | EncErr => EncErr end.
Notation "'do' x <- r ; k" := (bind r (fun x => k)) (at level 200, x pattern, r at level 100, k at level 200).

Definition is_ok {A} (r : result A) : bool := match r with Ok _ => true | _ => false end.
Definition is_pyerr {A} (r : result A) : bool := match r with PyErr _ => true | _ => false end.

(* DecodeError and its subclasses (what `except DecodeError` catches in the dispatcher) *)
Definition is_decode_error (e : irerr) : bool :=
  match e with DecodeError | LeadInError | LeadOutError | IRStreamError | TooManyBitsError | NotEnoughBitsError => true
  | _ => false end.

Definition irerr_code (e : irerr) : Z :=
  match e with DecodeError => 1 | LeadInError => 2 | LeadOutError => 3 | IRStreamError => 4 | TooManyBitsError => 5
  | NotEnoughBitsError => 6 | RepeatLeadInError => 7 | RepeatLeadOutError => 8 | RepeatTimeoutExpired => 9
  | ExpectingMoreData => 10 end%Z.
Definition pyerr_code (e : pyerr) : Z :=
  match e with IndexError => 21 | ValueError => 22 | TypeError => 23 | AttributeError => 24 | KeyError => 25
  | ZeroDivisionError => 26 | RuntimeError => 27 end%Z.

(* canonical encoding of an outcome as a list of integers for the correspondence check:
   [0; payload...] for a value, [code] for an exception *)
Definition enc_result {A} (enc : A -> list Z) (r : result A) : list Z :=
  match r with Ok a => 0%Z :: enc a | IRErr e => [irerr_code e] | PyErr e => [pyerr_code e] | EncErr => [30%Z] end.
