Definition build_mce_rlc_one (timing : Z) : Z :=
  (let dif := (Z.modulo timing 50) in (let dif := (if (Z.ltb dif 25) then (let dif := (Z.opp dif) in dif) else (let dif := (Z.sub 50 dif) in dif)) in (let timing := (Z.add timing dif) in timing))).

Definition build_mce_rlc (code : list Z) : list Z := map build_mce_rlc_one code.
